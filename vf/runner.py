"""Run Verus on a woven unit and attribute failures to clauses / properties."""
import json
import os
import re
import shutil
import subprocess
import tempfile
import time

from .unit import Unit, UnitError

VERIF = os.path.dirname(os.path.dirname(os.path.abspath(__file__)))
OUT = os.path.join(VERIF, 'out')

VERIFICATION_MSGS = (
    'postcondition not satisfied', 'precondition not satisfied', 'assertion failed',
    'invariant not satisfied', 'possible arithmetic underflow/overflow',
    'possible division by zero', 'decreases not satisfied', 'loop invariant not preserved',
    'possible bit shift underflow/overflow', 'unreachable', 'could not prove termination',
    'cannot show invariant holds', 'failed precondition', 'cannot prove',
    'assert_by', 'may be reachable', 'possible truncation', 'recommendation not met',
    'has been dropped', 'index out of bounds', 'loop invariant', 'unable to prove', 'not satisfied', 'might fail', 'possible',
)
RESOURCE_MSGS = ('rlimit', 'resource limit', 'timeout', 'timed out', 'canceled')


class Failure:
    def __init__(self):
        self.message = ''
        self.function = None     # item name or None (ours: lemma/spec)
        self.item = None
        self.tags = set()
        self.labels = []
        self.kfs = set()
        self.primary = None      # (woven line, text)
        self.clause = None       # (woven line, text) of the inserted clause, if any
        self.on_inserted = False # the failing obligation sits on an inserted line (assert / invariant / clause), not on a real one
        self.src = None          # (file, line) in /repo nearest to the failure
        self.kind = 'verification'   # 'verification' | 'resource' | 'other'
        self.rendered = ''

    def to_json(self):
        return {
            'message': self.message, 'function': self.function, 'tags': sorted(self.tags),
            'labels': self.labels, 'clause': self.clause, 'primary': self.primary,
            'repo_src': self.src, 'kind': self.kind,
        }


class UnitResult:
    def __init__(self, unit):
        self.unit = unit
        self.status = 'ok'            # ok | failed | undecided
        self.reason = ''
        self.failures = []
        self.functions = []           # function-breakdown entries (ours + real)
        self.verified = 0
        self.errors = 0
        self.smt_ms = 0
        self.total_ms = 0
        self.cmd = ''
        self.woven_path = None
        self.items = []
        self.trusted = []
        self.vacuity = None           # None | {'probes': n, 'fired': n, 'silent': [names]}
        self.wall_s = 0.0
        self.changed_items = []
        self.incomplete_items = {}
        self.displaced_items = {}     # changed functions with in-body proof steps whose neighbouring real lines changed
        self.unweave = None


def scan_trusted(lines):
    """Assumption scan: every external_body / assume_specification / admit / assume."""
    found = []
    text = '\n'.join(l.text for l in lines)
    for m in re.finditer(r'assume_specification\s*(?:<[^>]*>)?\s*\[\s*([^\]]+?)\s*\]', text):
        found.append('assume_specification ' + ' '.join(m.group(1).split()))
    ls = [l.text for l in lines]
    for i, t in enumerate(ls):
        if 'verifier::external_body' in t and 'imported from unit' in t:
            for k in range(i, min(i + 8, len(ls))):
                m = re.search(r'\bfn\s+([A-Za-z_0-9]+)', ls[k])
                if m:
                    found.append('imported contract %s (%s)' % (m.group(1), t.split('//')[1].strip()))
                    break
        elif 'verifier::external_body' in t:
            # name of the next fn
            for k in range(i, min(i + 6, len(ls))):
                m = re.search(r'\bfn\s+([A-Za-z_0-9]+)', ls[k])
                if m:
                    kind = 'real-fn-under-assumed-contract' if lines[k].kind == 'real' else 'prelude'
                    found.append('external_body %s (%s)' % (m.group(1), kind))
                    break
        if re.search(r'\badmit\s*\(\s*\)', t):
            found.append('admit at woven line %d' % (i + 1))
        if re.search(r'(?<![A-Za-z_])assume\s*\(', t):
            found.append('assume at woven line %d: %s' % (i + 1, t.strip()))
        if re.search(r'\buninterp\s+spec\s+fn\s+([A-Za-z_0-9]+)', t):
            found.append('uninterpreted ' + re.search(r'\buninterp\s+spec\s+fn\s+([A-Za-z_0-9]+)', t).group(1))
    return sorted(set(found))


def _run_verus(path, args, timeout):
    cmd = ['verus', os.path.basename(path), '--output-json', '--time', '--multiple-errors', '30',
           '--error-format=json'] + args
    t0 = time.time()
    try:
        p = subprocess.run(cmd, cwd=os.path.dirname(path), capture_output=True, text=True, timeout=timeout)
        return cmd, p.returncode, p.stdout, p.stderr, time.time() - t0
    except subprocess.TimeoutExpired as e:
        return cmd, -9, e.stdout or '', (e.stderr or '') if isinstance(e.stderr, str) else '', time.time() - t0


def _parse_diags(stderr):
    diags = []
    for line in stderr.split('\n'):
        line = line.strip()
        if not line.startswith('{'):
            continue
        try:
            d = json.loads(line)
        except ValueError:
            continue
        if d.get('$message_type') == 'diagnostic':
            diags.append(d)
    return diags


def _classify(msg):
    m = msg.lower()
    if any(k in m for k in RESOURCE_MSGS):
        return 'resource'
    if any(k in m for k in VERIFICATION_MSGS):
        return 'verification'
    return 'other'


def _isolable(unit, lines, diags):
    """Indices of fn items (not slices, not already assumed) containing the primary span of a rustc / VIR error."""
    from . import rustscan
    idx = set()
    for d in diags:
        if d.get('level') != 'error' or (_classify(d.get('message', '')) != 'other' and not d.get('code')):
            continue
        sps = [sp for sp in d.get('spans', []) if sp.get('is_primary')]
        if not sps:
            continue
        for sp in sps:
            ln = sp.get('line_start')
            if not ln or ln > len(lines) or lines[ln - 1].item is None:
                return set()
            it = unit.items[lines[ln - 1].item]
            if it.trusted or not (it.kind == 'slice' or (it.kind == 'item' and rustscan.parse_path(it.path_text)[-1][0] == 'fn')):
                return set()
            idx.add(lines[ln - 1].item)
    return idx


def _unbalanced_items(unit, lines):
    from . import rustscan
    by_item = {}
    for l in lines:
        if l.item is not None:
            by_item.setdefault(l.item, []).append(l.text)
    bad = set()
    for i, txt in by_item.items():
        it = unit.items[i]
        if it.trusted or not (it.kind == 'slice' or (it.kind == 'item' and rustscan.parse_path(it.path_text)[-1][0] == 'fn')):
            continue
        try:
            m = rustscan.mask('\n'.join(txt))
        except Exception:
            continue
        depth = {'(': 0, '[': 0, '{': 0}
        close = {')': '(', ']': '[', '}': '{'}
        ok = True
        for ch in m:
            if ch in depth:
                depth[ch] += 1
            elif ch in close:
                depth[close[ch]] -= 1
                if depth[close[ch]] < 0:
                    ok = False
                    break
        if not ok or any(depth.values()):
            bad.add(i)
    return bad


def run_unit(unit_path, kf_on=True, vacuity=False, extra_args=(), timeout=900, keep=True, seed=None):
    """Runs the unit; when rustc / the Verus front end rejects the body of some fn items (construct outside the
    supported subset, call to a helper that is not under contract) those fns are isolated (body dropped, contract
    kept for callers) and the unit is run again so that every other function is still decided."""
    isolate = set()
    why = []
    for _round in range(3):
        res = _run_unit(unit_path, kf_on, vacuity, extra_args, timeout, keep, seed, isolate)
        more = getattr(res, 'isolable', set()) - isolate
        if not more:
            break
        why.append(res.reason)
        isolate |= more
    if isolate and vacuity:
        return res
    if isolate and res.status != 'undecided':
        names = [res.unit.items[i].name for i in sorted(isolate)]
        res.isolated = names
        note = 'functions not processable and left undecided: %s (%s)' % (', '.join(names), ' ; '.join(why)[:400])
        if res.status == 'ok':
            res.status = 'undecided'
            res.only_isolated = True
            res.reason = note + '; every other obligation of the unit holds'
        else:
            res.reason = (res.reason + ' ; ' if res.reason else '') + note
    return res


def _run_unit(unit_path, kf_on, vacuity, extra_args, timeout, keep, seed, isolate):
    unit = Unit(unit_path)
    res = UnitResult(unit)
    res.isolable = set()
    res.isolated = []
    t0 = time.time()
    try:
        lines = unit.build(kf_on=kf_on, vacuity=vacuity, isolate=isolate)
        ok, bad = unit.unweave_ok(lines, skip=isolate)
        res.unweave = ok
        if not ok:
            raise UnitError('unweave mismatch in ' + bad)
    except UnitError as e:
        res.status = 'undecided'
        res.reason = 'extract/weave: %s' % e
        res.wall_s = time.time() - t0
        return res
    # a function whose woven text has unbalanced delimiters (annotations that no longer fit a restructured body) cannot be
    # attributed by rustc; it is isolated like any other unprocessable function instead of leaving the whole unit undecided
    unbalanced = _unbalanced_items(unit, lines) - set(isolate)
    if unbalanced:
        res.status = 'undecided'
        res.reason = 'woven text of %s has unbalanced delimiters' % ', '.join(unit.items[i].name for i in sorted(unbalanced))
        res.isolable = unbalanced
        res.wall_s = time.time() - t0
        return res
    res.trusted = scan_trusted(lines)
    res.items = [{
        'name': it.name, 'path': it.path_text, 'file': it.relpath,
        'lines': list(it.src_range[1:]) if it.src_range else None, 'sha256': it.sha256,
        'assumed_contract_only': it.trusted, 'rules': it.rules, 'changed_vs_stored_copy': it.changed,
        'kind': it.kind,
    } for it in unit.items]
    res.changed_items = [it.name for it in unit.items if it.changed]
    res.incomplete_items = {it.name: list(it.lowering_incomplete) for it in unit.items if getattr(it, 'lowering_incomplete', None)}
    res.displaced_items = {it.name: it.displaced for it in unit.items if getattr(it, 'displaced', 0)}
    tmp = tempfile.mkdtemp(prefix='vf-%s-' % unit.name)
    try:
        suffix = ('_vac' if vacuity else '') + ('' if kf_on else '_strict')
        fname = unit.name + suffix + '.rs'
        path = os.path.join(tmp, fname)
        with open(path, 'w') as f:
            f.write('\n'.join(l.text for l in lines) + '\n')
        if keep:
            os.makedirs(OUT, exist_ok=True)
            shutil.copy(path, os.path.join(OUT, fname))
            res.woven_path = os.path.join(OUT, fname)
        args = list(unit.verus_args) + list(extra_args)
        if seed is not None:
            args += ['--smt-option', 'smt.random_seed=%d' % seed]
        cmd, rc, stdout, stderr, wall = _run_verus(path, args, timeout)
        res.cmd = ' '.join(cmd)
        if rc == -9:
            res.status = 'undecided'
            res.reason = 'verus timed out after %ds' % timeout
            return res
        try:
            js = json.loads(stdout)
        except ValueError:
            js = None
        diags = _parse_diags(stderr)
        errs = [d for d in diags if d.get('level') == 'error' and d.get('spans')]
        if js is None or 'verification-results' not in js:
            res.status = 'undecided'
            msgs = [d.get('message', '') for d in diags if d.get('level') == 'error'][:5]
            res.reason = 'verus produced no verification result (rustc/VIR error): ' + ' | '.join(msgs or [stderr[-500:]])
            res.isolable = _isolable(unit, lines, diags)
            return res
        vr = js['verification-results']
        res.verified = vr.get('verified', 0)
        res.errors = vr.get('errors', 0)
        tm = js.get('times-ms', {})
        res.total_ms = tm.get('total', 0)
        smt = tm.get('smt', {})
        res.smt_ms = smt.get('total', 0)
        for mod in smt.get('smt-run-module-times', []):
            for fb in mod.get('function-breakdown', []):
                res.functions.append({
                    'function': fb.get('function'), 'mode': fb.get('mode:') or fb.get('mode'),
                    'time_us': fb.get('time-micros'), 'rlimit': fb.get('rlimit'), 'success': fb.get('success'),
                })
        if vr.get('encountered-vir-error') or (vr.get('encountered-error') and not errs and res.errors == 0):
            res.status = 'undecided'
            msgs = [d.get('message', '') for d in diags if d.get('level') == 'error'][:5]
            res.reason = 'verus front-end error: ' + ' | '.join(msgs)
            res.isolable = _isolable(unit, lines, diags)
            return res
        # item line ranges in the woven file
        for d in errs:
            f = Failure()
            f.message = d.get('message', '')
            f.rendered = d.get('rendered', '')
            f.kind = _classify(f.message)
            if d.get('code'):
                f.kind = 'other'     # a rustc error (E…): the woven file does not compile — never a verification failure
            spans = d.get('spans', [])
            for ch in d.get('children', []):
                spans = spans + ch.get('spans', [])
            prim = None
            for sp in spans:
                ln = sp.get('line_start')
                if not ln or ln > len(lines):
                    continue
                L = lines[ln - 1]
                if sp.get('is_primary') and prim is None:
                    prim = ln
                if L.kind in ('ins', 'raw') and (L.tags or L.label or L.kf):
                    if sp.get('is_primary') is False or f.clause is None:
                        pass
                    f.tags.update(L.tags)
                    if L.label:
                        f.labels.append(L.label)
                    if L.kf:
                        f.kfs.add(L.kf)
                    f.clause = (ln, L.text.strip())
            if prim is None and spans:
                prim = spans[0].get('line_start')
            if prim and prim <= len(lines):
                P = lines[prim - 1]
                f.primary = (prim, P.text.strip())
                f.on_inserted = P.kind in ('ins', 'raw')
                if P.item is not None:
                    f.item = P.item
                    f.function = unit.items[P.item].name
            # the /repo line: first span that lies on a real line, else the real line
            # nearest before the primary span inside the same item
            for sp in spans:
                ln = sp.get('line_start')
                if ln and ln <= len(lines) and lines[ln - 1].kind == 'real':
                    f.src = list(lines[ln - 1].src)
                    if f.item is None:
                        f.item = lines[ln - 1].item
                        f.function = unit.items[f.item].name
                    break
            if f.src is None and f.primary and f.item is not None:
                k = f.primary[0] - 1
                while k >= 0 and lines[k].item == f.item and lines[k].kind != 'real':
                    k -= 1
                if k >= 0 and lines[k].kind == 'real' and lines[k].item == f.item:
                    f.src = list(lines[k].src)
            # untagged failures inside a real item: automatic obligations on real lines
            if not f.tags and f.item is not None and f.kind == 'verification':
                # automatic obligations on real lines, untagged loop invariants / asserts / decreases:
                # they serve the item's declared properties (//@auto)
                f.tags.update(unit.items[f.item].auto)
                f.labels.append('auto')
            res.failures.append(f)
        if vacuity and any(f.kind == 'other' for f in res.failures):
            res.status = 'undecided'
            res.reason = 'non-verification error: ' + ' | '.join(f.message for f in res.failures if f.kind == 'other')[:600]
            res.isolable = _isolable(unit, lines, diags)
            return res
        if vacuity:
            probes = [i for i, l in enumerate(lines) if l.label == 'vac']
            fired = set()
            for f in res.failures:
                if f.primary and lines[f.primary[0] - 1].label == 'vac':
                    fired.add(f.primary[0] - 1)
            silent = [unit.items[lines[i].item].name for i in probes if i not in fired]
            res.vacuity = {'probes': len(probes), 'fired': len(fired), 'silent': silent}
            res.status = 'ok' if not silent else 'undecided'
            if silent:
                res.reason = 'vacuity: assert(false) not refuted in ' + ', '.join(silent)
            return res
        if res.errors == 0 and not errs and vr.get('success'):
            res.status = 'ok'
        elif any(f.kind == 'resource' for f in res.failures):
            res.status = 'undecided' if all(f.kind != 'verification' for f in res.failures) else 'failed'
            res.reason = 'resource limit reached in: ' + ', '.join(str(f.function) for f in res.failures if f.kind == 'resource')
        elif any(f.kind == 'other' for f in res.failures):
            res.status = 'undecided'
            res.reason = 'non-verification error: ' + ' | '.join(f.message for f in res.failures if f.kind == 'other')[:600]
            res.isolable = _isolable(unit, lines, diags)
        else:
            res.status = 'failed'
        return res
    finally:
        res.wall_s = time.time() - t0
        shutil.rmtree(tmp, ignore_errors=True)
