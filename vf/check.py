"""Entry point: decide one property.  usage: check <PROP> [--tier quick|thorough] [--replay FILE]

exit 0: every obligation tagged for the property was discharged by Verus on the
        text currently in /repo (known findings printed as KNOWN-FINDING lines);
exit 1: an obligation tagged for the property failed  -> `VIOLATION property=… replay=…`;
exit 2: undecided (lost anchor, unsupported construct, resource limit, vacuity) — never an alarm.
"""
import concurrent.futures as cf
import glob
import json
import os
import subprocess
import sys
import time

from . import runner
from .unit import Unit, UnitError

VERIF = runner.VERIF
UNITS = os.path.join(VERIF, 'units')
EVID = os.environ.get('VERIF_EVID') or os.path.join(VERIF, 'evidence')
KF_FILE = os.path.join(VERIF, 'known_findings.json')


def load_units():
    us = []
    for p in sorted(glob.glob(os.path.join(UNITS, '*.rs'))):
        us.append(Unit(p))
    return us


def load_kf():
    if not os.path.exists(KF_FILE):
        return {'findings': [], 'fixed': []}
    with open(KF_FILE) as f:
        return json.load(f)


def _job(args):
    path, kw = args
    return runner.run_unit(path, **kw)


def main(argv=None):
    argv = argv or sys.argv[1:]
    if not argv:
        print(__doc__)
        return 2
    prop = argv[0]
    tier = os.environ.get('VERIF_TIER', 'quick')
    if '--tier' in argv:
        tier = argv[argv.index('--tier') + 1]
    if '--replay' in argv:
        rp = argv[argv.index('--replay') + 1]
        with open(rp) as f:
            print(f.read())
        return 0
    seed = int(os.environ.get('VERIF_SEED', '0') or 0)
    t0 = time.time()
    os.makedirs(EVID, exist_ok=True)
    os.makedirs(os.path.join(EVID, 'replay'), exist_ok=True)
    for old in glob.glob(os.path.join(EVID, 'replay', prop + '-*.json')):
        os.remove(old)

    try:
        allu = load_units()
        units = [u for u in allu if prop in u.tags()]
        # units whose contracts are imported (as assumed) must be proved in the same run
        names = set(u.name for u in units)
        grew = True
        while grew:
            grew = False
            for u in list(units):
                for imp in u.imports():
                    if imp not in names:
                        units += [x for x in allu if x.name == imp]
                        names.add(imp)
                        grew = True
    except UnitError as e:
        print('UNDECIDED property=%s unit files unreadable: %s' % (prop, e))
        return 2
    if not units:
        print('UNDECIDED property=%s no unit carries a clause for it' % prop)
        return 2
    kf = load_kf()
    my_kf = [k for k in kf.get('findings', []) if k.get('property') == prop or prop in k.get('properties', [])]

    jobs = []
    for u in units:
        jobs.append((u.path, dict(kf_on=True, vacuity=False)))
        jobs.append((u.path, dict(kf_on=True, vacuity=True)))
        if tier == 'thorough':
            for k in range(1, 4):
                jobs.append((u.path, dict(kf_on=True, vacuity=False, seed=seed * 7 + k, keep=False)))
            if u.kfs:
                jobs.append((u.path, dict(kf_on=False, vacuity=False)))
    with cf.ThreadPoolExecutor(max_workers=min(16, len(jobs))) as ex:
        results = list(ex.map(_job, jobs))

    main_res, vac_res, seed_res, strict_res = [], [], [], []
    for (path, kw), r in zip(jobs, results):
        if kw.get('vacuity'):
            vac_res.append(r)
        elif kw.get('seed') is not None:
            seed_res.append(r)
        elif not kw.get('kf_on'):
            strict_res.append(r)
        else:
            main_res.append(r)

    violations = []
    undecided = []
    obligations = 0
    discharged = 0
    samples = []
    unit_reports = []
    trusted = set()
    cmds = []
    tagged_clauses = 0
    for r in main_res:
        u = r.unit
        cmds.append('(cd out && %s)' % r.cmd if r.cmd else '')
        for t in r.trusted:
            trusted.add('%s: %s' % (u.name, t))
        nq = len(r.functions)
        ok_q = sum(1 for f in r.functions if f['success'])
        obligations += nq
        discharged += ok_q
        ntag = sum(1 for it in u.items for st in it.stored if prop in st[2])
        ntag += sum(1 for k, seg in u.segments if k == 'raw' for l in seg if prop in l.tags)
        tagged_clauses += ntag
        rep = {
            'unit': u.name, 'status': r.status, 'reason': r.reason, 'backend': 'verus 0.2026.09.13 / z3 (bundled)',
            'queries': nq, 'queries_ok': ok_q, 'verified_fns': r.verified, 'errors': r.errors,
            'smt_ms': r.smt_ms, 'verus_total_ms': r.total_ms, 'wall_s': round(r.wall_s, 2),
            'clauses_tagged_for_property': ntag,
            'functions_under_contract': [i for i in r.items if not i['assumed_contract_only']],
            'functions_assumed_contract': [i['name'] for i in r.items if i['assumed_contract_only']],
            'items_changed_vs_stored_copy': r.changed_items,
            'unweave_check': r.unweave, 'woven_file': r.woven_path,
        }
        unit_reports.append(rep)
        if r.status == 'undecided':
            # functions that could not be processed this run (changed into something outside the subset): the property is
            # undecided only if one of them carries a clause or an automatic obligation for it
            iso = getattr(r, 'isolated', []) if getattr(r, 'only_isolated', False) else None
            if iso:
                carrying = []
                for it in u.items:
                    if it.name in iso:
                        tags = set(it.auto)
                        for st in it.stored:
                            tags.update(st[2])
                        if prop in tags:
                            carrying.append(it.name)
                rep['not_processed_this_run'] = iso
                if carrying:
                    undecided.append('%s: %s' % (u.name, r.reason))
                else:
                    rep['status'] = 'ok (functions without clauses for %s not processed: %s)' % (prop, ', '.join(iso))
            else:
                undecided.append('%s: %s' % (u.name, r.reason))
        for f in r.failures:
            if f.kind != 'verification':
                continue
            # annotation drift: an UNTAGGED inserted proof step (helper assert, ghost bookkeeping, untagged invariant) that fails inside a
            # function whose text differs from the stored copy may only mean that the transferred annotations no longer fit the new
            # code (ghost updates sit in branches that were restructured).  That is undecided, not a violation.  Tagged clauses
            # (contract lines and invariants that state the property over the real state) and automatic obligations on real lines
            # (overflow, index, callee precondition, termination) stay violations.
            drift = 'auto' in f.labels and getattr(f, 'on_inserted', False) and f.function in (r.changed_items or [])
            unlowered = (getattr(r, 'incomplete_items', {}) or {}).get(f.function)
            # displaced proof steps: in the changed function some inserted proof step (lemma call, ghost update, helper assert) follows or
            # precedes a real line that is no longer there, so it may now sit at the wrong program point (before the statement it talks
            # about instead of after it).  An obligation stated on an inserted line (clause, invariant, assert) that fails there may be a
            # lost hint, not a defect: undecided.  Automatic obligations on real lines stay violations.
            displaced = getattr(f, 'on_inserted', False) and (getattr(r, 'displaced_items', {}) or {}).get(f.function, 0)
            if prop in f.tags and unlowered:
                # a declared lowering rule of this function did not apply to the changed text: the construct it used to replace by a
                # specified one is handed to the verifier as it is, so a failed obligation says nothing about the code
                undecided.append('%s: a lowering rule of the changed function %s no longer applies (%s); failed obligation not counted: %s' %
                                 (u.name, f.function, '; '.join(unlowered)[:200], (f.labels or ['auto'])[0]))
            elif prop in f.tags and displaced and not drift:
                undecided.append('%s: %d proof step(s) of the changed function %s lost their place (the real lines next to them changed); failed obligation on an inserted line not counted: %s' %
                                 (u.name, displaced, f.function, (f.labels or ['auto'])[0]))
            elif prop in f.tags and drift:
                undecided.append('%s: untagged proof step failed in the changed function %s (the transferred annotations may not fit the new code): %s @ woven line %s' %
                                 (u.name, f.function, f.primary and f.primary[1][:120], f.primary and f.primary[0]))
            elif prop in f.tags:
                violations.append((r, f))
            elif not f.tags:
                # an untagged failure (helper assert, lemma): the clauses behind it are not decided
                fn_tags = set()
                if f.item is not None:
                    it = u.items[f.item]
                    for st in it.stored:
                        fn_tags.update(st[2])
                    fn_tags.update(it.auto)
                else:
                    fn_tags = u.tags()
                if prop in fn_tags:
                    undecided.append('%s: untagged obligation failed in %s: %s @ woven line %s' %
                                     (u.name, f.function, f.message, f.primary and f.primary[0]))
        for fb in sorted(r.functions, key=lambda x: -(x['time_us'] or 0))[:3]:
            samples.append({'unit': u.name, 'obligation': 'function-level query', 'function': fb['function'],
                            'mode': fb['mode'], 'time_us': fb['time_us'], 'rlimit': fb['rlimit'], 'success': fb['success']})
        k = 0
        for it in u.items:
            for st in it.stored:
                if prop in st[2] and k < 4:
                    samples.append({'unit': u.name, 'obligation': 'clause', 'function': it.name,
                                    'file': it.relpath, 'lines': it.src_range and list(it.src_range[1:]),
                                    'clause': st[0].strip(), 'label': st[4]})
                    k += 1
    vac_probes = 0
    for r in vac_res:
        if r.vacuity:
            vac_probes += r.vacuity['probes']
        if r.status != 'ok':
            undecided.append('%s (vacuity twin): %s' % (r.unit.name, r.reason))
    unstable = []
    for r in seed_res:
        obligations += len(r.functions)
        discharged += sum(1 for f in r.functions if f['success'])
        base = [m for m in main_res if m.unit.name == r.unit.name][0]
        if r.status != base.status:
            unstable.append(r.unit.name)
    # a proof found under the default seed is a proof; a reseeded run that runs out of resources only shows that the proof is
    # fragile — reported in the evidence (stability), never as undecided

    # known findings
    kf_lines = []
    for k in my_kf:
        if k.get('unit') and k['unit'] not in [u.name for u in units]:
            continue
        line = 'KNOWN-FINDING: property=%s %s — %s [input: %s] (checked under side condition: %s)' % (
            prop, k.get('id', ''), k.get('what', ''), k.get('input', ''), k.get('side_condition', ''))
        if tier == 'thorough':
            sr = [s for s in strict_res if s.unit.name == k.get('unit')]
            if sr:
                hit = any(k.get('id') in (f.labels + list(f.kfs)) or k.get('clause_label') in f.labels
                          for f in sr[0].failures)
                line += ' strict-run: ' + ('still reproduces' if (hit or sr[0].status == 'failed') else 'no longer reproduces')
        kf_lines.append(line)
        print(line)

    # replay files
    vio_out = []
    for n, (r, f) in enumerate(violations):
        rp = os.path.join(EVID, 'replay', '%s-%s-%s-%d.json' % (prop, r.unit.name, (f.labels or ['auto'])[0], n))
        doc = {
            'property': prop, 'unit': r.unit.name, 'function': f.function,
            'failed_obligation': f.message, 'clause': f.clause, 'clause_labels': f.labels,
            'repo_source': f.src, 'woven_file': r.woven_path, 'verus_cmd': r.cmd,
            'verus_output': f.rendered, 'failing_input': None,
            'note': 'Verus gives no counterexample; see failing_input for the replay search result',
        }
        found = None
        try:
            from . import replay
            found = replay.search(prop, r.unit.name, f)
        except Exception as e:   # the searcher never decides anything
            doc['replay_search_error'] = repr(e)
        if found:
            doc['failing_input'] = found
        with open(rp, 'w') as fh:
            json.dump(doc, fh, indent=1)
        tail = '' if found else ' no-failing-input-found'
        vio_out.append('VIOLATION property=%s replay=%s unit=%s fn=%s clause=%s%s' % (
            prop, rp, r.unit.name, f.function, (f.labels or ['auto'])[0], tail))

    # bounded stand-ins for the driver functions out of the verifier's reach (labelled bounded, never counted as proved)
    bnd = []
    from . import bounded
    if prop in bounded.MODES:
        repo = os.environ.get('VERIF_REPO', '/repo')
        exe, why = bounded.build(repo)
        if exe is None:
            undecided.append('bounded stand-in not run: %s' % why)
        else:
            try:
                bnd = bounded.run(prop, tier, exe)
            finally:
                try:
                    os.remove(exe)
                except OSError:
                    pass
            for rec in bnd:
                if rec.get('error'):
                    undecided.append('bounded stand-in %s: %s' % (rec['mode'], rec['error']))
                other = 0
                for n, hit in enumerate(rec['found']):
                    if prop not in bounded.hit_props(rec['mode'], hit.get('detail', ''), bounded.served_by(rec['mode'])):
                        other += 1       # the failed oracle states another property (this mode runs several over the same documents)
                        continue
                    known = [k for k in my_kf if hit.get('input') in k.get('bounded_inputs', [])]
                    if known:
                        line = 'KNOWN-FINDING: property=%s %s — %s [input: %s]' % (prop, known[0].get('id', ''), known[0].get('what', ''), hit.get('input'))
                        kf_lines.append(line)
                        print(line)
                        continue
                    rp = os.path.join(EVID, 'replay', '%s-bounded-%s-%d.json' % (prop, rec['mode'], n))
                    with open(rp, 'w') as fh:
                        json.dump({'property': prop, 'kind': 'bounded stand-in: concrete failing input on the real crate', 'mode': rec['mode'],
                                   'stands_in_for': rec['stands_in_for'], 'failing_input': hit, 'reproduce': rec.get('reproduce')}, fh, indent=1)
                    vio_out.append('VIOLATION property=%s replay=%s bounded=%s input=%s' % (prop, rp, rec['mode'], json.dumps(hit.get('input', ''))[:300]))
                rec['hits_for_other_properties'] = other

    meta = PROPS.get(prop, {})
    assumptions = list(meta.get('unverified', [])) + [
        'A1 Verus 0.2026.09.13 (VIR/AIR translation, bundled Z3) and rustc 1.98.1 front end are trusted',
        'A2 unicode_width: width(c) in {None,0,1,2}; str width == sum of char widths (false for emoji variation sequences in unicode-width 0.2: known finding D4)',
        'A4 lowering rules of DESIGN.md §2.3 preserve meaning; every application is logged per item',
        'A5 accumulated widths/sizes stay below 2^62 (boundary precondition)',
        'A8 debug_assert! treated as assert!',
    ] + ['known finding assumed away by side condition: %s (%s)' % (k.get('id'), k.get('side_condition')) for k in my_kf]
    ev = {
        'property_id': prop, 'tier': tier, 'seed': seed, 'level': 'proof',
        'coverage': {
            'obligations': obligations, 'discharged': discharged,
            'checker_cmd': ' ; '.join(c for c in cmds if c),
            'trusted_base': sorted(trusted),
            'samples': samples[:12],
            'clauses_tagged_for_property': tagged_clauses,
            'vacuity_probes_refuted': vac_probes,
            'units': unit_reports,
            'solver_time_ms': sum(r.smt_ms for r in main_res),
            'stability_runs': len(seed_res),
            'unstable_under_reseeding': sorted(set(unstable)),
            'bounded': [{k: v for k, v in rec.items() if k != 'found'} | {'found': rec['found'][:5]} for rec in bnd],
            'evaluations': sum((rec.get('cases') or 0) for rec in bnd),
            'distinct_nontrivial': sum((rec.get('distinct') or 0) for rec in bnd),
            'rule': ('bounded stand-ins only (not part of the proof): ' + ' ; '.join('%s: %s' % (rec['mode'], rec.get('bound')) for rec in bnd)) if bnd else 'no bounded stand-in for this property',
            'explanation': 'obligations = function-level SMT queries issued by Verus for the units carrying clauses of this property '
                           '(each query discharges every requires/ensures/invariant/decreases/overflow/index/unwrap obligation of one function); '
                           'clauses_tagged_for_property counts the inserted contract lines that state this property.',
        },
        'assumptions': assumptions,
        'known_findings': kf_lines,
        'undecided': undecided,
        'wall_s': round(time.time() - t0, 2),
        'violations': len(vio_out),
    }
    with open(os.path.join(EVID, prop + '.json'), 'w') as fh:
        json.dump(ev, fh, indent=1)
    for v in vio_out:
        print(v)
    if vio_out:
        return 1
    if undecided:
        for u in undecided:
            print('UNDECIDED property=%s %s' % (prop, u))
        return 2
    print('OK property=%s units=%s queries=%d/%d clauses=%d vacuity-probes=%d%s wall=%.1fs' % (
        prop, ','.join(u.name for u in units), discharged, obligations, tagged_clauses, vac_probes,
        (' bounded=%s(%d cases)' % ('+'.join(r['mode'] for r in bnd), sum((r.get('cases') or 0) for r in bnd))) if bnd else '', time.time() - t0))
    return 0


try:
    from .props import PROPS
except Exception:
    PROPS = {}

if __name__ == '__main__':
    sys.exit(main())
