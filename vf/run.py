"""Developer driver: python3 -m vf.run <unit> [--strict] [--vac] — prints failures compactly."""
import sys
from .runner import run_unit


def main():
    name = sys.argv[1]
    extra = []
    if '--fn' in sys.argv:
        extra = ['--verify-root', '--verify-function', sys.argv[sys.argv.index('--fn') + 1]]
    r = run_unit('units/%s.rs' % name, kf_on='--strict' not in sys.argv, vacuity='--vac' in sys.argv, extra_args=extra)
    if extra and r.status == 'failed' and r.errors == 0 and not r.failures:
        r.status = 'ok(partial: --fn)'
    print('status=%s verified=%d errors=%d smt=%dms total=%dms wall=%.1fs %s' % (r.status, r.verified, r.errors, r.smt_ms, r.total_ms, r.wall_s, r.reason))
    if r.changed_items:
        print('ITEMS DIFFER FROM STORED COPY:', r.changed_items)
    if r.vacuity:
        print('vacuity', r.vacuity)
    for f in r.failures:
        print('-- %s | fn=%s tags=%s labels=%s' % (f.message, f.function, sorted(f.tags), f.labels))
        if '--v' in sys.argv:
            print(f.rendered)
        else:
            print('   primary:', f.primary)
            print('   clause :', f.clause)
    slow = sorted(r.functions, key=lambda x: -(x['time_us'] or 0))[:5]
    for s in slow:
        print('   %8.2fs rlimit=%s %s %s' % ((s['time_us'] or 0) / 1e6, s['rlimit'], s['function'], '' if s['success'] else 'FAILED'))


if __name__ == '__main__':
    main()
